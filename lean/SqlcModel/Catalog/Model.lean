/-
L1 — model of internal/sql/catalog (catalog.go, schema.go, table.go, types.go, comment_on.go) as a
state machine over DDL operations, handler by handler, with the same lookup order (first match /
last match) and the same slice splicing as the Go code. Lists, not maps, exactly like the Go code.

Pointers are modelled by functional update of the first schema / table that the Go lookup returns.
A failing statement aborts the run (sqlc prints the error and generates nothing), so the state after
an error is unobservable and the model returns only the error.
-/
namespace Sqlc.Cat

structure Column where
  name : String
  tschema : String
  tname : String
  notNull : Bool
  isArray : Bool
  comment : String := ""
deriving Repr, DecidableEq, BEq

structure Table where
  relSchema : String        -- Rel.Schema as written in the creating statement
  name : String
  cols : List Column
  comment : String := ""
deriving Repr, DecidableEq, BEq

inductive Ty where
  | enum (name : String) (vals : List String) (comment : String)
  | composite (name : String) (comment : String)
deriving Repr, DecidableEq, BEq

def Ty.name : Ty → String
  | .enum n _ _ => n
  | .composite n _ => n

structure Schema where
  name : String
  tables : List Table := []
  types : List Ty := []
  comment : String := ""
deriving Repr, DecidableEq, BEq

structure Catalog where
  defaultSchema : String
  schemas : List Schema
deriving Repr, DecidableEq, BEq

/-- error kinds as the harness canonicalises them: `exists:<sqlstate>`, `notfound:<sqlstate>`, `other:` -/
abbrev Err := String
def eSchemaExists : Err := "exists:42P06"
def eSchemaNotFound : Err := "notfound:3F000"
def eRelationExists : Err := "exists:42P07"
def eRelationNotFound : Err := "notfound:42P01"
def eColumnExists : Err := "exists:42701"
def eColumnNotFound : Err := "notfound:42703"
def eTypeExists : Err := "exists:42710"
def eTypeNotFound : Err := "notfound:42704"
def eOther : Err := "other:"

def isNotFound (e : Err) : Bool := e.startsWith "notfound:"

/-! ### operations -/

structure ColDef where
  name : String
  tschema : String
  tname : String
  isArray : Bool
  notNull : Bool           -- NOT NULL or column-level PRIMARY KEY or named in a table-level PRIMARY KEY
deriving Repr, DecidableEq

inductive AlterCmd where
  | add (c : ColDef) (missingOk : Bool)
  | drop (col : String) (missingOk : Bool)
  | setType (col : String) (tschema tname : String) (isArray : Bool)
  | setNotNull (col : String)
  | dropNotNull (col : String)
deriving Repr, DecidableEq

structure QName where
  schema : String       -- "" = unqualified
  name : String
deriving Repr, DecidableEq

inductive DDL where
  | createSchema (name : String) (ifNotExists : Bool)
  | dropSchema (names : List String) (missingOk : Bool)
  | createTable (rel : QName) (ifNotExists : Bool) (cols : List ColDef)
  | dropTable (rels : List QName) (ifExists : Bool)
  | renameTable (rel : QName) (newName : String)
  | setSchema (rel : QName) (newSchema : String)
  | alterTable (rel : QName) (cmds : List AlterCmd)
  | renameColumn (rel : QName) (col newName : String)
  | createEnum (ty : QName) (vals : List String)
  | createComposite (ty : QName)
  | addValue (ty : QName) (val : String) (skipIfExists : Bool) (pos : Option (Bool × String))  -- (isAfter, neighbour)
  | renameValue (ty : QName) (old new : String)
  | dropType (tys : List QName) (ifExists : Bool)
  | commentSchema (name : String) (text : Option String)
  | commentTable (rel : QName) (text : Option String)
  | commentColumn (rel : QName) (col : String) (text : Option String)
  | commentType (ty : QName) (text : Option String)
deriving Repr, DecidableEq

/-! ### lookups -/

def ns (c : Catalog) (q : QName) : String := if q.schema == "" then c.defaultSchema else q.schema

def findSchema (c : Catalog) (name : String) : Option Schema := c.schemas.find? (·.name == name)

def getSchema (c : Catalog) (name : String) : Except Err Schema :=
  match findSchema c name with
  | some s => .ok s
  | none => .error eSchemaNotFound

def Schema.findTable (s : Schema) (name : String) : Option Table := s.tables.find? (·.name == name)
def Schema.tableIdx (s : Schema) (name : String) : Option Nat := s.tables.findIdx? (·.name == name)

/-- Schema.getType: sees enums *and* composite types -/
def Schema.findType (s : Schema) (name : String) : Option Ty := s.types.find? (·.name == name)
def Schema.typeIdx (s : Schema) (name : String) : Option Nat := s.types.findIdx? (·.name == name)

/-- Catalog.getTable -/
def getTable (c : Catalog) (q : QName) : Except Err (Schema × Table) :=
  match findSchema c (ns c q) with
  | none => .error eSchemaNotFound
  | some s =>
    match s.findTable q.name with
    | some t => .ok (s, t)
    | none => .error eRelationNotFound

def modifyFirst {α : Type} (p : α → Bool) (f : α → α) : List α → List α
  | [] => []
  | a :: as => if p a then f a :: as else a :: modifyFirst p f as

/-- replace the first schema named `name` -/
def modifySchema (c : Catalog) (name : String) (f : Schema → Schema) : Catalog :=
  { c with schemas := modifyFirst (·.name == name) f c.schemas }

def Schema.modifyTable (s : Schema) (name : String) (f : Table → Table) : Schema :=
  { s with tables := modifyFirst (·.name == name) f s.tables }

def Schema.modifyType (s : Schema) (name : String) (f : Ty → Ty) : Schema :=
  { s with types := modifyFirst (·.name == name) f s.types }

def modifyTable (c : Catalog) (q : QName) (f : Table → Table) : Catalog :=
  modifySchema c (ns c q) (fun s => s.modifyTable q.name f)

/-- index of the last element satisfying p (the `for … { if … { idx = i } }` idiom) -/
def lastIdx? {α : Type} (p : α → Bool) (l : List α) : Option Nat :=
  let rec go : List α → Nat → Option Nat → Option Nat
    | [], _, acc => acc
    | a :: as, i, acc => go as (i+1) (if p a then some i else acc)
  go l 0 none

def mkColumn (d : ColDef) : Column :=
  { name := d.name, tschema := d.tschema, tname := d.tname, notNull := d.notNull, isArray := d.isArray }

/-! ### handlers -/

def createSchema (c : Catalog) (name : String) (ifNotExists : Bool) : Except Err Catalog :=
  match findSchema c name with
  | some _ => if ifNotExists then .ok c else .error eSchemaExists
  | none => .ok { c with schemas := c.schemas ++ [{ name := name }] }

def dropSchema (c : Catalog) : List String → Bool → Except Err Catalog
  | [], _ => .ok c
  | n :: rest, missingOk =>
    match lastIdx? (·.name == n) c.schemas with
    | none => if missingOk then dropSchema c rest missingOk else .error eSchemaNotFound
    | some i => dropSchema { c with schemas := c.schemas.eraseIdx i } rest missingOk

def hasDupNames : List String → Bool
  | [] => false
  | a :: as => as.contains a || hasDupNames as

def createTable (c : Catalog) (q : QName) (ifNotExists : Bool) (cols : List ColDef) : Except Err Catalog := do
  let s ← getSchema c (ns c q)
  match s.findTable q.name with
  | some _ => if ifNotExists then .ok c else .error eRelationExists
  | none =>
    if (s.findType q.name).isSome then .error eTypeExists
    else if hasDupNames (cols.map (·.name)) then .error eColumnExists
    else
      let t : Table := { relSchema := q.schema, name := q.name, cols := cols.map mkColumn }
      .ok (modifySchema c (ns c q) (fun s => { s with tables := s.tables ++ [t] }))

def dropTable (c : Catalog) : List QName → Bool → Except Err Catalog
  | [], _ => .ok c
  | q :: rest, ifExists =>
    match findSchema c (ns c q) with
    | none => if ifExists then dropTable c rest ifExists else .error eSchemaNotFound
    | some s =>
      match s.tableIdx q.name with
      | none => if ifExists then dropTable c rest ifExists else .error eRelationNotFound
      | some i =>
        dropTable (modifySchema c (ns c q) (fun s => { s with tables := s.tables.eraseIdx i })) rest ifExists

def colIdx (t : Table) (name : String) : Option Nat := t.cols.findIdx? (·.name == name)

def modifyCol (t : Table) (i : Nat) (f : Column → Column) : Table :=
  { t with cols := t.cols.modify i f }

/-- one AlterTableCmd applied to the table -/
def alterCmd (t : Table) : AlterCmd → Except Err Table
  | .add d missingOk =>
    if t.cols.any (·.name == d.name) then
      (if missingOk then .ok t else .error eColumnExists)
    else .ok { t with cols := t.cols ++ [mkColumn d] }
  | .drop col missingOk =>
    match colIdx t col with
    | none => if missingOk then .ok t else .error eColumnNotFound
    | some i => .ok { t with cols := t.cols.eraseIdx i }
  | .setType col ts tn arr =>
    match colIdx t col with
    | none => .error eColumnNotFound
    | some i => .ok (modifyCol t i (fun c => { c with tschema := ts, tname := tn, isArray := arr }))
  | .setNotNull col =>
    match colIdx t col with
    | none => .error eColumnNotFound
    | some i => .ok (modifyCol t i (fun c => { c with notNull := true }))
  | .dropNotNull col =>
    match colIdx t col with
    | none => .error eColumnNotFound
    | some i => .ok (modifyCol t i (fun c => { c with notNull := false }))

def alterCmds (t : Table) : List AlterCmd → Except Err Table
  | [] => .ok t
  | cmd :: rest => do
    let t' ← alterCmd t cmd
    alterCmds t' rest

def alterTable (c : Catalog) (q : QName) (cmds : List AlterCmd) : Except Err Catalog :=
  if cmds.isEmpty then .ok c       -- `implemented` stays false
  else do
    let (_, t) ← getTable c q
    let t' ← alterCmds t cmds
    .ok (modifyTable c q (fun _ => t'))

def setSchema (c : Catalog) (q : QName) (newSchema : String) : Except Err Catalog := do
  let old ← getSchema c (ns c q)
  match old.findTable q.name, old.tableIdx q.name with
  | some t, some i =>
    let nw ← getSchema c newSchema
    if (nw.findTable q.name).isSome then .error eRelationExists
    else if (nw.findType q.name).isSome then .error eTypeExists
    else
      let c1 := modifySchema c (ns c q) (fun s => { s with tables := s.tables.eraseIdx i })
      .ok (modifySchema c1 newSchema (fun s => { s with tables := s.tables ++ [t] }))
  | _, _ => .error eRelationNotFound

def renameColumn (c : Catalog) (q : QName) (col newName : String) : Except Err Catalog := do
  let (_, t) ← getTable c q
  if t.cols.any (·.name == newName) then .error eColumnExists
  else
    match lastIdx? (·.name == col) t.cols with
    | none => .error eColumnNotFound
    | some i => .ok (modifyTable c q (fun t => modifyCol t i (fun c => { c with name := newName })))

def renameTable (c : Catalog) (q : QName) (newName : String) : Except Err Catalog := do
  let (s, _) ← getTable c q
  if (s.findTable newName).isSome then .error eRelationExists
  else if (s.findType newName).isSome then .error eTypeExists
  else .ok (modifyTable c q (fun t => { t with name := newName }))

def createType (c : Catalog) (q : QName) (mk : String → Ty) : Except Err Catalog := do
  let s ← getSchema c (ns c q)
  if (s.findTable q.name).isSome then .error eRelationExists
  else if (s.findType q.name).isSome then .error eTypeExists
  else .ok (modifySchema c (ns c q) (fun s => { s with types := s.types ++ [mk q.name] }))

def createEnum (c : Catalog) (q : QName) (vals : List String) : Except Err Catalog := do
  let s ← getSchema c (ns c q)
  if (s.findTable q.name).isSome then .error eRelationExists
  else if (s.findType q.name).isSome then .error eTypeExists
  else if hasDupNames vals then .error eOther
  else .ok (modifySchema c (ns c q) (fun s => { s with types := s.types ++ [.enum q.name vals ""] }))

def insertAt (l : List String) (i : Nat) (v : String) : List String := l.take i ++ v :: l.drop i

def addValue (c : Catalog) (q : QName) (val : String) (skip : Bool) (pos : Option (Bool × String)) : Except Err Catalog := do
  let s ← getSchema c (ns c q)
  match s.findType q.name with
  | none => .error eTypeNotFound
  | some (.composite _ _) => .error eOther
  | some (.enum _ vals _) =>
    if vals.contains val then (if skip then .ok c else .error eOther)
    else
      match pos with
      | none =>
        .ok (modifySchema c (ns c q) (fun s => s.modifyType q.name (fun
          | .enum n vs cm => .enum n (vs ++ [val]) cm
          | t => t)))
      | some (isAfter, nb) =>
        match vals.findIdx? (· == nb) with
        | none => .error eOther
        | some i =>
          let at_ := if isAfter then i + 1 else i
          .ok (modifySchema c (ns c q) (fun s => s.modifyType q.name (fun
            | .enum n vs cm => .enum n (insertAt vs at_ val) cm
            | t => t)))

def renameValue (c : Catalog) (q : QName) (old new : String) : Except Err Catalog := do
  let s ← getSchema c (ns c q)
  match s.findType q.name with
  | none => .error eTypeNotFound
  | some (.composite _ _) => .error eOther
  | some (.enum _ vals _) =>
    match lastIdx? (· == old) vals with
    | none => .error eOther
    | some i =>
      if vals.contains new then .error eOther
      else .ok (modifySchema c (ns c q) (fun s => s.modifyType q.name (fun
        | .enum n vs cm => .enum n (vs.set i new) cm
        | t => t)))

def dropType (c : Catalog) : List QName → Bool → Except Err Catalog
  | [], _ => .ok c
  | q :: rest, ifExists =>
    match findSchema c (ns c q) with
    | none => if ifExists then dropType c rest ifExists else .error eSchemaNotFound
    | some s =>
      match s.typeIdx q.name with
      | none => if ifExists then dropType c rest ifExists else .error eTypeNotFound
      | some i =>
        dropType (modifySchema c (ns c q) (fun s => { s with types := s.types.eraseIdx i })) rest ifExists

def commentSchema (c : Catalog) (name : String) (text : Option String) : Except Err Catalog := do
  let _ ← getSchema c name
  .ok (modifySchema c name (fun s => { s with comment := text.getD "" }))

def commentTable (c : Catalog) (q : QName) (text : Option String) : Except Err Catalog := do
  let _ ← getTable c q
  .ok (modifyTable c q (fun t => { t with comment := text.getD "" }))

def commentColumn (c : Catalog) (q : QName) (col : String) (text : Option String) : Except Err Catalog := do
  let (_, t) ← getTable c q
  match colIdx t col with
  | none => .error eColumnNotFound
  | some i => .ok (modifyTable c q (fun t => modifyCol t i (fun c => { c with comment := text.getD "" })))

def Ty.setComment (t : Ty) (cm : String) : Ty :=
  match t with
  | .enum n vs _ => .enum n vs cm
  | .composite n _ => .composite n cm

def commentType (c : Catalog) (q : QName) (text : Option String) : Except Err Catalog := do
  let s ← getSchema c (ns c q)
  match s.findType q.name with
  | none => .error eTypeNotFound
  | some _ => .ok (modifySchema c (ns c q) (fun s => s.modifyType q.name (fun t => t.setComment (text.getD ""))))

/-- Catalog.Update -/
def update (c : Catalog) : DDL → Except Err Catalog
  | .createSchema n g => createSchema c n g
  | .dropSchema ns g => dropSchema c ns g
  | .createTable q g cols => createTable c q g cols
  | .dropTable qs g => dropTable c qs g
  | .renameTable q n => renameTable c q n
  | .setSchema q n => setSchema c q n
  | .alterTable q cmds => alterTable c q cmds
  | .renameColumn q a b => renameColumn c q a b
  | .createEnum q vs => createEnum c q vs
  | .createComposite q => createType c q (fun n => .composite n "")
  | .addValue q v s p => addValue c q v s p
  | .renameValue q a b => renameValue c q a b
  | .dropType qs g => dropType c qs g
  | .commentSchema n t => commentSchema c n t
  | .commentTable q t => commentTable c q t
  | .commentColumn q col t => commentColumn c q col t
  | .commentType q t => commentType c q t

/-- fold of a history; stops at the first error -/
def run (c : Catalog) : List DDL → Except Err Catalog
  | [] => .ok c
  | op :: ops => do
    let c' ← update c op
    run c' ops

/-- postgresql.NewCatalog(), minus pg_catalog (which DDL of the modelled fragment never touches
unless it names it explicitly — the generators do not) -/
def initPg : Catalog := { defaultSchema := "public", schemas := [{ name := "public" }, { name := "pg_temp" }] }

end Sqlc.Cat
