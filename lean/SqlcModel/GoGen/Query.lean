import SqlcModel.GoGen.Types
import SqlcModel.Query.Analyze
/-
L3 — internal/codegen/golang/result.go + query.go: columnsToStruct, buildQueries' argument and
result shaping, QueryValue.Params / Scan / Pair.
-/
namespace Sqlc.GoGen
open Sqlc

structure Field where
  name : String
  type : String
  dbTag : String := ""      -- the tag name before case styling
deriving Repr, DecidableEq, Inhabited

structure Struct where
  name : String
  fields : List Field
  table : FQN := {}
deriving Repr, DecidableEq, Inhabited

structure GoColumn where
  id : Nat
  col : Q.Column
deriving Repr, Inhabited

def toTypeColumn (c : Q.Column) : Column :=
  { name := c.name, dataType := c.dataType, notNull := c.notNull, isArray := c.isArray, length := c.length,
    table := c.table.map (fun t => { catalog := t.catalog, schema := t.schema, name := t.name }) }

def lookupNat (m : List (Nat × Nat)) (k : Nat) : Option Nat := (m.find? (·.1 == k)).map (·.2)
def lookupStr (m : List (String × Nat)) (k : String) : Nat := ((m.find? (·.1 == k)).map (·.2)).getD 0
def bump (m : List (String × Nat)) (k : String) : List (String × Nat) :=
  if m.any (·.1 == k) then m.map (fun e => if e.1 == k then (e.1, e.2 + 1) else e) else m ++ [(k, 1)]
def setNat (m : List (Nat × Nat)) (k v : Nat) : List (Nat × Nat) :=
  if m.any (·.1 == k) then m.map (fun e => if e.1 == k then (k, v) else e) else m ++ [(k, v)]

/-- the loop of columnsToStruct; `i` is the position, `seen` counts column names, `suffixes` remembers
the suffix chosen for a column id -/
def c2sLoop (env : TypeEnv) : List GoColumn → Nat → List (String × Nat) → List (Nat × Nat) → List Field
  | [], _, _, _ => []
  | c :: rest, i, seen, suffixes =>
    let colName := columnName c.col.name i
    let suffix : Nat := match lookupNat suffixes c.id with
      | some o => o
      | none => let v := lookupStr seen colName; if v > 0 then v + 1 else 0
    let fieldName := structName env.rename colName
    let (tag, fname) := if suffix > 0 then (s!"{colName}_{suffix}", s!"{fieldName}_{suffix}") else (colName, fieldName)
    { name := fname, type := goType env (toTypeColumn c.col), dbTag := tag } ::
      c2sLoop env rest (i + 1) (bump seen colName) (setNat suffixes c.id suffix)

def columnsToStruct (env : TypeEnv) (name : String) (cols : List GoColumn) : Struct :=
  { name := name, fields := c2sLoop env cols 0 [] [] }

/-- paramName -/
def paramName (p : Q.Parameter) : String :=
  match p.column with
  | some c => if c.name != "" then argName c.name else s!"dollar_{p.number}"
  | none => s!"dollar_{p.number}"       -- (Go dereferences a nil Column here: unreachable, see resolveOne)

structure QueryValue where
  emit : Bool := false
  name : String := ""
  struct : Option Struct := none
  typ : String := ""
deriving Repr, DecidableEq, Inhabited

def QueryValue.isEmpty (v : QueryValue) : Bool := v.typ == "" && v.name == "" && v.struct.isNone

def needsArray (t : String) : Bool := t.startsWith "[]" && t != "[]byte"

/-- the `out` slice of QueryValue.Params (before joining) -/
def QueryValue.params (v : QueryValue) : List String :=
  if v.isEmpty then []
  else match v.struct with
    | none => [if needsArray v.typ then s!"pq.Array({v.name})" else v.name]
    | some s => s.fields.map (fun f => if needsArray f.type then s!"pq.Array({v.name}.{f.name})" else s!"{v.name}.{f.name}")

/-- the `out` slice of QueryValue.Scan -/
def QueryValue.scan (v : QueryValue) : List String :=
  match v.struct with
  | none => [if needsArray v.typ then s!"pq.Array(&{v.name})" else s!"&{v.name}"]
  | some s => s.fields.map (fun f => if needsArray f.type then s!"pq.Array(&{v.name}.{f.name})" else s!"&{v.name}.{f.name}")

/-- buildQueries' argument shaping -/
def argOf (env : TypeEnv) (methodName : String) (params : List Q.Parameter) : QueryValue :=
  match params with
  | [] => {}
  | [p] => { name := paramName p, typ := goType env (toTypeColumn (p.column.getD {})) }
  | ps => { emit := true, name := "arg",
            struct := some (columnsToStruct env (methodName ++ "Params") (ps.map (fun p => { id := p.number, col := p.column.getD {} }))) }

/-- buildQueries' result shaping without the model-struct reuse (`structs = []`) -/
def retOfFresh (env : TypeEnv) (methodName : String) (cols : List Q.Column) : QueryValue :=
  match cols with
  | [] => {}
  | [c] => { name := columnName c.name 0, typ := goType env (toTypeColumn c) }
  | cs => { emit := true, name := "i",
            struct := some (columnsToStruct env (methodName ++ "Row") ((cs.zipIdx).map (fun ci => { id := ci.2, col := ci.1 }))) }

/-- the per-struct test of buildQueries: same length, and for every position the same field name, the
same Go type and the same table (all positions are examined; one failure clears `same`) -/
def reuseMatch (env : TypeEnv) (s : Struct) (cols : List Q.Column) : Bool :=
  s.fields.length == cols.length &&
  ((s.fields.zip cols).zipIdx).all (fun (fc, i) =>
    fc.1.name == structName env.rename (columnName fc.2.name i) &&
    fc.1.type == goType env (toTypeColumn fc.2) &&
    sameTableName ((toTypeColumn fc.2).table) s.table env.defaultSchema)

/-- buildQueries' result shaping: the first model struct that passes the test is returned instead of a
fresh Row struct -/
def retOf (env : TypeEnv) (structs : List Struct) (methodName : String) (cols : List Q.Column) : QueryValue :=
  match cols with
  | [] => {}
  | [c] => { name := columnName c.name 0, typ := goType env (toTypeColumn c) }
  | cs =>
    match structs.find? (fun s => reuseMatch env s cs) with
    | some s => { emit := false, name := "i", struct := some s }
    | none => retOfFresh env methodName cs

end Sqlc.GoGen
