/-
Identifier derivation of internal/codegen/golang: StructName, argName, LowerTitle, columnName,
paramName, EnumReplace — modelled on `List Char`, exact for ASCII input (Go's strings.Title and
unicode.ToLower on non-ASCII runes are outside the fragment; the driver reports FRAG out).
-/
namespace Sqlc.GoGen

def isAsciiAlnum (c : Char) : Bool := c.isAlphanum
/-- strings.Title's separator test on ASCII -/
def isSep (c : Char) : Bool := !(c.isAlphanum || c == '_')

/-- strings.Title on an ASCII string -/
def titleAux : Char → List Char → List Char
  | _, [] => []
  | prev, c :: cs => (if isSep prev then c.toUpper else c) :: titleAux c cs

def title (s : List Char) : List Char := titleAux ' ' s

/-- strings.Split(s, "_") -/
def splitUnderscore : List Char → List (List Char)
  | [] => [[]]
  | c :: cs =>
    if c = '_' then [] :: splitUnderscore cs
    else match splitUnderscore cs with
      | [] => [[c]]
      | p :: ps => (c :: p) :: ps

def idChars : List Char := ['i', 'd']
def IDChars : List Char := ['I', 'D']

def structPart (p : List Char) : List Char := if p = idChars then IDChars else title p

/-- StructName without the rename lookup -/
def structNameL (name : List Char) : List Char := (splitUnderscore name).flatMap structPart

/-- golang.StructName: `settings.Rename[name]` wins when non-empty -/
def structName (rename : List (String × String)) (name : String) : String :=
  match rename.find? (fun kv => kv.1 == name) with
  | some (_, r) => if r != "" then r else String.ofList (structNameL name.toList)
  | none => String.ofList (structNameL name.toList)

def lowerL (p : List Char) : List Char := p.map Char.toLower

def argParts : Nat → List (List Char) → List Char
  | _, [] => []
  | i, p :: ps => (if i = 0 then lowerL p else if p = idChars then IDChars else title p) ++ argParts (i+1) ps

/-- golang.argName -/
def argName (name : String) : String := String.ofList (argParts 0 (splitUnderscore name.toList))

/-- codegen.LowerTitle (callers guarantee a non-empty name) -/
def lowerTitle (s : String) : String :=
  match s.toList with
  | [] => ""
  | c :: cs => String.ofList (c.toLower :: cs)

def isAscii (s : String) : Bool := s.toList.all (fun c => c.toNat < 128)

/-- golang.columnName -/
def columnName (name : String) (pos : Nat) : String :=
  if name != "" then name else s!"column_{pos+1}"

/-- EnumReplace: `-`,`:`,`/` become `_`, every other character outside [a-zA-Z0-9_] is removed -/
def enumReplace (v : String) : String :=
  String.ofList ((v.toList.map (fun c => if c = '-' || c = ':' || c = '/' then '_' else c)).filter
    (fun c => c.isAlphanum || c = '_'))

end Sqlc.GoGen
