import SqlcModel.GoGen.Names
import SqlcModel.Gen.TypeTables
/-
goType / goInnerType / postgresType / mysqlType (internal/codegen/golang/{go_type,postgresql_type,
mysql_type,compat}.go). The two type switches are REGENERATED (`Gen.pgTypeArms`,
`Gen.mysqlTypeArms`, `Gen.mysqlTinyint1`); the override loops and the enum/composite fallback loop are
hand-written and tied by the C09/C15 correspondence streams (hook `VerifGoType`).
-/
namespace Sqlc.GoGen

structure TableName where
  catalog : String := ""
  schema : String := ""
  name : String
deriving Repr, DecidableEq, BEq

structure FQN where
  catalog : String := ""
  schema : String := ""
  rel : String := ""
deriving Repr, DecidableEq, BEq

structure Column where
  name : String := ""
  dataType : String
  notNull : Bool := false
  isArray : Bool := false
  length : Option Nat := none
  table : Option TableName := none
deriving Repr, DecidableEq

structure Override where
  goTypeName : String
  dbType : String := ""
  nullable : Bool := false
  column : String := ""       -- the raw `column` option; only its emptiness is consulted
  columnName : String := ""
  table : FQN := {}
deriving Repr, DecidableEq

inductive TypeDecl where
  | enum (name : String)
  | composite (name : String)
deriving Repr, DecidableEq

/-- what goType reads from its environment -/
structure TypeEnv where
  engine : String                                   -- "postgresql" | "mysql" | "_lemon" | other
  defaultSchema : String
  schemas : List (String × List TypeDecl)           -- catalog order, all schemas (pg_catalog included)
  overrides : List Override := []
  rename : List (String × String) := []

def sameTableName (n : Option TableName) (f : FQN) (defaultSchema : String) : Bool :=
  match n with
  | none => false
  | some n =>
    let schema := if n.schema == "" then defaultSchema else n.schema
    n.catalog == f.catalog && schema == f.schema && n.name == f.rel

def lookupArm (arms : List (List String × String × String)) (dt : String) : Option (String × String) :=
  (arms.find? (fun a => a.1.contains dt)).map (·.2)

def pick (r : String × String) (notNull : Bool) : String := if notNull then r.1 else r.2

/-- compiler.ParseRelationString, as far as the fallback loop uses it: (schema, name) or none -/
def parseRel (s : String) : Option (String × String) :=
  match s.splitOn "." with
  | [n] => some ("", n)
  | [sc, n] => some (sc, n)
  | [_, sc, n] => some (sc, n)
  | _ => none

/-- the `default:` arm of postgresType: the first enum or composite type of that schema-qualified name,
in catalog order -/
def pgFallbackTypes (defaultSchema : String) (rename : List (String × String)) (relSchema relName : String) (notNull : Bool) :
    List (String × List TypeDecl) → Option String
  | [] => none
  | (sname, tys) :: rest =>
    if sname == "pg_catalog" then pgFallbackTypes defaultSchema rename relSchema relName notNull rest
    else
      let rec go : List TypeDecl → Option String
        | [] => none
        | .enum n :: more =>
          if relName == n && relSchema == sname then
            some (if sname == defaultSchema then structName rename n
                  else structName rename (sname ++ "_" ++ n))
          else go more
        | .composite n :: more =>
          if relName == n && relSchema == sname then some (if notNull then "string" else "sql.NullString")
          else go more
      match go tys with
      | some r => some r
      | none => pgFallbackTypes defaultSchema rename relSchema relName notNull rest

def postgresType (env : TypeEnv) (col : Column) : String :=
  let notNull := col.notNull || col.isArray
  match lookupArm Gen.pgTypeArms col.dataType with
  | some r => pick r notNull
  | none =>
    match parseRel col.dataType with
    | none => "interface{}"
    | some (sc, n) =>
      let sc := if sc == "" then env.defaultSchema else sc
      (pgFallbackTypes env.defaultSchema env.rename sc n notNull env.schemas).getD "interface{}"

def mysqlFallback (defaultSchema : String) (rename : List (String × String)) (dt : String) : List (String × List TypeDecl) → Option String
  | [] => none
  | (sname, tys) :: rest =>
    let rec go : List TypeDecl → Option String
      | [] => none
      | .enum n :: more =>
        if n == dt then
          some (if sname == defaultSchema then structName rename n
                else structName rename (sname ++ "_" ++ n))
        else go more
      | .composite _ :: more => go more
    match go tys with
    | some r => some r
    | none => mysqlFallback defaultSchema rename dt rest

def mysqlType (env : TypeEnv) (col : Column) : String :=
  let notNull := col.notNull || col.isArray
  let tiny := match Gen.mysqlTinyint1 with
    | (sp, a, b) :: _ => if sp.contains col.dataType && col.length == some 1 then some (a, b) else none
    | [] => none
  match tiny with
  | some r => pick r notNull
  | none =>
    match lookupArm Gen.mysqlTypeArms col.dataType with
    | some r => pick r notNull
    | none => (mysqlFallback env.defaultSchema env.rename col.dataType env.schemas).getD "interface{}"

def dbTypeOverride (ovs : List Override) (columnType : String) (notNull : Bool) : Option String :=
  (ovs.find? (fun o => o.goTypeName != "" && o.dbType != "" && o.dbType == columnType && o.nullable != notNull)).map (·.goTypeName)

def goInnerType (env : TypeEnv) (col : Column) : String :=
  let notNull := col.notNull || col.isArray
  match dbTypeOverride env.overrides col.dataType notNull with
  | some t => t
  | none =>
    if env.engine == "mysql" then mysqlType env col
    else if env.engine == "postgresql" then postgresType env col
    else if env.engine == "_lemon" then "interface{}"   -- sqliteType is not modelled; out of fragment
    else "interface{}"

def columnOverride (env : TypeEnv) (col : Column) : Option String :=
  (env.overrides.find? (fun o => o.goTypeName != "" && o.column != "" && o.columnName == col.name &&
      sameTableName col.table o.table env.defaultSchema)).map (·.goTypeName)

def goType (env : TypeEnv) (col : Column) : String :=
  match columnOverride env col with
  | some t => t
  | none =>
    let typ := goInnerType env col
    if col.isArray then Gen.arrayPrefix ++ typ else typ

end Sqlc.GoGen
