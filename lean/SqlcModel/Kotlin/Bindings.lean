/-
Model of internal/codegen/kotlin/gen.go ktColumnsToStruct: from the per-OCCURRENCE parameter stream of a
positional (Kotlin / PostgreSQL) query to the method's arguments (one per distinct placeholder) and the JDBC
binds (one per `?`). Names are modelled up to the case style: the column name plus the numeric suffix.
-/
namespace Sqlc.Kotlin

structure KtCol where
  id : Nat            -- the placeholder number
  name : String       -- the column the placeholder was inferred from ("" = none)
deriving Repr, DecidableEq, Inhabited

structure KtField where
  base : String       -- namer(column, id): the column name, or dollar_N
  suffix : Nat        -- 0 = none, k = "_k"
deriving Repr, DecidableEq, Inhabited

def baseName (c : KtCol) : String := if c.name != "" then c.name else s!"dollar_{c.id}"

def lookupId (m : List (Nat × KtField)) (k : Nat) : Option KtField := (m.find? (·.1 == k)).map (·.2)
def countName (m : List (String × Nat)) (k : String) : Nat := ((m.find? (·.1 == k)).map (·.2)).getD 0
def bumpName (m : List (String × Nat)) (k : String) : List (String × Nat) :=
  if m.any (·.1 == k) then m.map (fun e => if e.1 == k then (e.1, e.2 + 1) else e) else m ++ [(k, 1)]

structure KtState where
  fields : List KtField := []
  binds : List KtField := []
  idSeen : List (Nat × KtField) := []
  nameSeen : List (String × Nat) := []
deriving Repr, Inhabited

/-- one iteration of the loop -/
def ktStep (st : KtState) (c : KtCol) : KtState :=
  match lookupId st.idSeen c.id with
  | some b => { st with binds := st.binds ++ [b] }
  | none =>
    let v := countName st.nameSeen c.name
    let f : KtField := { base := baseName c, suffix := if v > 0 then v + 1 else 0 }
    { fields := st.fields ++ [f], binds := st.binds ++ [f],
      idSeen := st.idSeen ++ [(c.id, f)], nameSeen := bumpName st.nameSeen c.name }

def ktColumnsToStruct (cols : List KtCol) : KtState := cols.foldl ktStep {}

/-- compiler.rewriteNumberedParameters: one `$n -> ?` edit per occurrence -/
structure PosEdit where
  loc : Int
  old : String
  new : String
deriving Repr, DecidableEq

def rewriteNumbered (refs : List (Nat × Int)) (stmtLocation : Int) : List PosEdit :=
  refs.map (fun r => { loc := r.2 - stmtLocation, old := s!"${r.1}", new := "?" })

end Sqlc.Kotlin
